#!/usr/bin/env python3
"""Regenerates /verif/MANIFEST.json from the table below (kept in one place so the file is always valid)."""
import json
import os

ROOT = os.path.dirname(os.path.dirname(os.path.abspath(__file__)))

BASELINE_OFF = ("cd /repo && env -u RENORMALIZER_VERIF /venv/bin/python -m pytest -ra -q -p no:cacheprovider "
                "--timeout=900 --continue-on-collection-errors")

TRUST = ("numpy/scipy dense linear algebra used by the reference model; the harness's own generators and oracles "
         "(rv/dense.py, rv/gen.py); only executions that were produced are judged")

# id -> (category, technique, level text, level note, design ref)
CHECKS = {
    "C01": ("exploration",
            "reference-model monitor: real Mpo construction (3 algorithms) and try_swap_site walks on generated term "
            "tables, compared with an independent dense sum of Kronecker products",
            "Randomised + structured term tables over mixed basis kinds; every case is built with qr, Hopcroft-Karp and "
            "Hungarian and compared entry-wise with the dense reference, then walked through random adjacent swaps with "
            "each decomposition algorithm; every twelfth case rebuilds the same term objects in a model that partitions "
            "the same DoFs into sites differently. Held on the executions observed; evidence lists input classes and worst errors.",
            "local matrices from BasisSet.op_mat (judged by C16); dims <= 1024; uint16 table limits out of reach",
            "DESIGN.md section 3 / C01"),
    "C02": ("exploration",
            "reference-model monitor: real TTNO construction on >= 3 generated topologies per case (library constructors "
            "and hand-made random trees with multi-set and dummy nodes), compared with the dense sum of Kronecker "
            "products, pairwise between topologies and with the chain MPO; multiset monitor on tree.basis_list",
            "Every tree kind, dummy root/internal/leaf, multi-set nodes, arity 3, three algorithms, none/one/two quantum "
            "numbers; the complex class must be refused, never silently made real.",
            "nbas >= 2 for physical sets (todense squeezes size-1 axes); prod(d) <= 1024; print_tree shim on sys.path of "
            "the check processes only",
            "DESIGN.md section 3 / C02"),
    "C03": ("exploration",
            "reference-model monitor over recorded operation histories: every arithmetic result is compared with the "
            "same operation on dense operands, immediately and after canonicalising/compressing a copy",
            "Histories of 4..12 operations over pools of states (own gauge history, centre, direction, prefactor each) "
            "and charged/neutral operators; scalar results (dot, angle, norms, distance, expectation, transition "
            "amplitude) against dense values; total charge bookkeeping of products and adjoints asserted.",
            "tensor-level convention for dot/mp_norm/expectation (coeff separate), prod(d) <= 400",
            "DESIGN.md section 3 / C03"),
    "C04": ("exploration",
            "invariant monitor at quiescent points (isometry recomputed from raw arrays, bond growth, exact caps) plus "
            "dense reference comparison after every canonicalise/compress call of a generated history",
            "Objects of all three chain classes with redundant, rank-deficient and unit bonds, one-site chains, every "
            "stop site, both sweep directions, three lossless compression modes, repetition, and variational compression "
            "of operator x state; every call is followed by the object/qntot/isometry/bond checks.",
            "canonical Mpo tensors are isometries up to a positive scalar (by design of the code); centre at sweep start is "
            "the asserted precondition of canonicalise/compress; prod(d) <= 600",
            "DESIGN.md section 3 / C04"),
    "C05": ("exploration",
            "reference-model monitor: truncated state compared with independently computed dense Schmidt spectra of the "
            "original state at every cut (two-sided discarded-weight bound), limits and norm asserted after every compress; "
            "executable model of the documented kept count (sequential dense Schmidt truncation in sweep order) compared cut "
            "by cut; the configuration object judged on synthetic spectra",
            "Canonical states incl. degenerate spectra and rank-deficient inputs compressed with every criterion and kind of "
            "limit from both directions; both inequalities are theorems, so any excursion is a defect of the truncation.",
            "dense SVD at every cut (prod(d) <= 20000); slack 1e-8",
            "DESIGN.md section 3 / C05"),
    "C06": ("exploration",
            "invariant monitors at quiescent points after every public call of a generated history: dense amplitudes "
            "outside the (shifted) sector, qntot bookkeeping, and the label invariant (every non-zero block of every "
            "site tensor allowed by the stored bond labels); operator labels vs the charge of the dense operator",
            "Hostile sectors (all occupied, single-state, next to empty), one/two quantum numbers; constructors, sums, "
            "canonicalise/compress incl. limit 1 and thresholds, charged operators and their adjoints, MpDm, DMRG 1-/2-site "
            "with perturbation, one step of every chain evolution scheme in real and imaginary time.",
            "labels inspected only after a public call returned; prod(d) <= 400",
            "DESIGN.md section 3 / C06"),
    "C07": ("exploration",
            "reference-model monitor: every observable the real methods return is compared with its definition on the "
            "dense vector; differential monitor fast path vs slow path; counting wrapper proves the cache was used",
            "Expectation values, transition amplitudes, batched cached fast path on adversarial operator lists, "
            "occupations through the shared per-model cache (interleaved states), RDMs and all entropies, for real and "
            "genuinely complex Mps and purified MpDm states in any gauge.",
            "coeff is a separate prefactor (library convention); prod(d) <= 1024",
            "DESIGN.md section 3 / C07"),
    "C08": ("exploration",
            "reference-model monitor: every energy of every micro-iteration and sweep (recorded through wrappers on "
            "single_sweep / eigh_direct / eigh_iterative / davidson1) against exact diagonalisation in the sector; returned "
            "states checked for norm, sector, labels and energy consistency; Davidson kernel driven directly",
            "Generated Hamiltonians (electron-phonon, XXZ, generic Hermitian tables, qc_model), random schedules, 1-/2-site, "
            "direct/iterative solvers (counters prove which ran), 1..4 roots, omega targeting, inverse=-1, StackedMpo, OFS.",
            "lower bounds are theorems; equalities only where the measured local dimension equals the sector dimension",
            "DESIGN.md section 3 / C08"),
    "C09": ("exploration",
            "reference-model monitor: every chain evolution scheme is run on generated models and compared with "
            "scipy expm / DOP853 on the dense vector; measured convergence order, solver differential, adaptive vs "
            "tolerance, splitting, conservation monitors along trajectories, bond-limit invariant, metamorphic homogeneity "
            "monitor (evolve(mu*psi) = mu*evolve(psi) with the factor in the tensors), Krylov contract observing "
            "Hermiticity at the real call sites",
            "39 scheme variants rotated over generated Hermitian models/sectors/states with oracles A-F, time-dependent "
            "H(t), density-operator states, multi-call histories and the shared-EvolveConfig hostile class.",
            "bond dimensions sufficient to hold the result (generic full-rank initial states); calibrated acceptance "
            "thresholds (DESIGN C09); dim <= 200",
            "DESIGN.md section 3 / C09"),
    "C10": ("exploration",
            "reference-model monitor: imaginary-time steps of every scheme vs dense exp(-tau H), ThermalProp trajectories "
            "vs dense Gibbs averages in the sector, exact_propagator / evolve_exact vs dense exponentials of the local "
            "vibrational Hamiltonian assembled from the Phonon parameters",
            "Generated models/sectors/states for the single-step order oracle; generated Holstein models (schemes 1-4, "
            "omega0 != omega1, 0/1 exciton) for thermal propagation with N and 2N steps; real/imaginary/complex "
            "propagator arguments and non-zero shifts/offsets.",
            "dense references (dim <= 1500); P&C at unlimited bond dimension for the thermal runs",
            "DESIGN.md section 3 / C10"),
    "C11": ("exploration",
            "reference-model monitor over operation histories on generated trees: every TTNS/TTNO result and observable "
            "against dense algebra (own contraction), label and isometry monitors at quiescent points, metamorphic "
            "child-order monitor (same state on a child-permuted twin tree)",
            "All tree kinds incl. random trees with multi-set and dummy nodes; add/scale/apply (full and partial operators)/"
            "canonicalise/compress/normalize; norms, expectations, 1-/2-site and 1-/2-DoF RDMs, entropies, mutual "
            "information, bond spectra; from_mps; auxiliary-space operators.",
            "prod(d) <= 600; dense references in generation order",
            "DESIGN.md section 3 / C11"),
    "C12": ("exploration",
            "reference-model monitor for tree time evolution: every scheme (tdvp_vmf, prop_and_compress_tdrk4, tdvp_ps, "
            "tdvp_ps2) in real and imaginary time against the dense propagator with per-scheme oracles (exact within "
            "solver tolerance where the scheme is exact, measured convergence order on step halving otherwise), sector "
            "and label monitors on every result, norm/energy conservation monitor for truncated one-site TDVP over "
            "multi-step histories, linear-tree-versus-chain differential monitor, auxiliary-space (purified) states, "
            "metamorphic homogeneity monitor from un-normalised product and full-rank states",
            "All tree kinds (linear, binary, MCTDH-like, T3NS, random with multi-set / virtual root, internal and leaf "
            "nodes); none/one/two quantum numbers; full-rank, sector-limited, truncated and product states; prefactors; "
            "2-4-call histories mixing schemes, steps, real and imaginary time.",
            "prod(d) <= 150 (auxiliary space: <= 16 per copy); real Hermitian Hamiltonians (the TTNO refuses complex "
            "operators); models with negative quantum-number labels excluded (TTNS.random cannot build them)",
            "DESIGN.md section 3 / C12"),
    "C13": ("exploration",
            "alias monitor: fingerprints (todense*coeff) of ALL live objects are recorded before and re-computed after "
            "every public call of a generated history; second phase mutates one object in place and observes the others; "
            "np.shares_memory recorded as diagnostic; per-scheme imaginary-time histories with complex Hamiltonians "
            "(input fingerprint, dtype, identity, shared tensor memory)",
            "Histories over pools of states (bond dimensions below and above their own limit), density operators and "
            "operators: every state-producing and measuring call incl. every evolution scheme in real and imaginary time "
            "with zero and non-zero offset, then in-place mutations through the public API.",
            "fingerprint ignores gauge changes by construction; documented exemptions (OFS Hamiltonian, optimiser guess) "
            "are not generated; prod(d) <= 120",
            "DESIGN.md section 3 / C13"),
    "C14": ("fault_enumeration",
            "fault injection + offline checker over recorded directory states: SIGKILL at every file-system syscall of the "
            "dump protocol (strace -e inject) and Python-level partial-write/os._exit injection, restart histories over "
            "the distinct dirty states; round-trip and spill-to-disk differential monitors (shadow list for every read, "
            "tensors handed out earlier re-examined after every write); the packaged thermal job's result dictionary and "
            "state dumps",
            "Every crash point of three dumps in generation 1, every crash point of the first dump(s) of jobs restarted "
            "into each distinct directory state (two generations quick, three thorough), swallowed-IOError histories, "
            "random-instant kills; dump/load round trips of Mps/MpDm/Mpo/TTNS with identical continuations; "
            "dump_matrix_size=1 spill runs.",
            "process death (SIGKILL / os._exit): unflushed Python buffers are lost, kernel buffers are not (power loss out of "
            "scope); only format versions the library can write",
            "DESIGN.md section 3 / C14"),
    "C15": ("exploration",
            "reference-model monitor over generated expression programs: each node is evaluated with the library's "
            "operators and denoted as a dense matrix that must equal the matrix expression of its operands; eq/hash laws; "
            "executable model of simplify(atol) (group same terms, add, then threshold)",
            "Random expression DAGs (depth <= 5) over all public arithmetic operators, scalar types, one/two quantum "
            "number components, simplify tolerances; per-symbol quantum numbers tracked; equality/hash consistency over "
            "pairs equal by different routes.",
            "denotation through BasisSet.op_mat on small basis lists (prod(d) <= 256)",
            "DESIGN.md section 3 / C15"),
    "C16": ("exploration",
            "reference-model monitor with references that do not use the matrix under test (own ladder algebra in an "
            "enlarged basis, Gauss-Legendre quadrature, Pauli algebra, displaced-oscillator Hamiltonians, translation "
            "operator), history-independence monitor on basis objects; closed forms for the Phonon / Mol / Quantity helpers and "
            "dense operators for the packaged model accessors and MPO shorthands",
            "Deterministic parameter grid + random parameters over every supported symbol of every basis class and the "
            "Holstein / spin-boson / translation-invariant builders (all schemes, periodic wrap-around).",
            "documented truncation at the highest level; N <= 12, powers <= 6; quadrature tolerance 1e-8",
            "DESIGN.md section 3 / C16"),
    "C17": ("exploration",
            "reference-model monitor: qc_model/int_to_h/read_fcidump Hamiltonians vs an independent fermionic matrix built "
            "from bit strings; swap walks vs the Jordan-Wigner Hamiltonian rebuilt in the new orbital order; OFS runs of "
            "optimisation and TDVP-PS2 observed through wrappers on try_swap_site / single_sweep; spin-traced reduced "
            "density matrices of the PySCF interface against their definitions on the dense vector",
            "Static fermionic reference (1..4 spatial orbitals, stacked/flat, with/without quantum numbers, FCIDUMP input), "
            "operator swaps with and without the Jordan-Wigner correction, on-the-fly swapping in DMRG and evolution with "
            "all criteria; swaps actually performed are counted and required.",
            "dense references; overlaps only for non-degenerate ground states; OFS equality only when the OFS-off run reaches it",
            "DESIGN.md section 3 / C17"),
    "C18": ("exploration",
            "icontract pre/postconditions on expm_krylov, svd_qn, eigh_qn bound on every call site (also active in situ "
            "under canonicalise/compress/TDVP/DMRG workloads), dense expm / SVD references, sys.monitoring line events "
            "proving which Krylov exit branch ran; injected LAPACK failures (eigh_tridiagonal, gesdd) drive the two fallback paths",
            "Direct hostile workloads (structured spectra, invariant subspaces, all dt phases, block sizes; arbitrary "
            "label patterns incl. empty and one-sided sectors, both systems, full/economic, SVD/QR) plus in-situ call "
            "sites; all four Krylov exit branches are required to be observed.",
            "Krylov judged for linear Hermitian maps with ||A|||dt| <= 20; tolerance 10x the kernel's own allclose",
            "DESIGN.md section 3 / C18"),
    "C20": ("exploration",
            "icontract postcondition on bipartite_vertex_cover at every call site + hook on _decompose_graph + "
            "small-scope exhaustive enumeration of graphs, against the harness's own maximum matching / brute force; "
            "the two augmenting-path matchers judged directly (valid matching of maximum size)",
            "All 69904 labelled graphs with |U|<=4, V<4 enumerated (thorough; exhaustive: true), random graphs to 40x40, "
            "every construction step of generated term tables observed through a hook, and bond_dims compared with the "
            "minimum cover of the harness's own term table at every cut.",
            "Koenig's theorem (minimum cover = maximum matching) computed by the harness's Kuhn matching, cross-checked "
            "by brute force for |U|<=10",
            "DESIGN.md section 3 / C20"),
    "C19": ("exploration",
            "exhaustive runtime evaluation of Butcher order conditions on the objects the real constructors return, "
            "plus measured convergence order of each tableau on non-linear ODEs (reference-model monitor)",
            "All 10 tableaux x rows x 17 rooted trees enumerated exhaustively (finite space), node/row-sum and "
            "metadata checked, constant-coefficient expansion compared with 1/k!; each row additionally drives a "
            "stepping loop whose observed order must match. Exhaustive for the shipped configuration space.",
            "float64 tolerance 1e-13; harness's own rooted-tree enumeration and elementary-weight recursion",
            "DESIGN.md section 3 / C19"),
}

NOT_YET = {}


def main():
    props = [json.loads(l) for l in open(os.path.join(ROOT, "properties.jsonl"))]
    checks = []
    na = []
    for p in props:
        pid = p["id"]
        if pid in CHECKS:
            cat, tech, text, note, ref = CHECKS[pid]
            checks.append({
                "property_id": pid,
                "quick_cmd": f"./check {pid} quick",
                "thorough_cmd": f"./check {pid} thorough",
                "evidence_file": f"evidence/{pid}.json",
                "replay_cmd_template": f"./check {pid} --replay {{path}}",
                "engine": "rv",
                "level_claimed": {"category": cat, "text": text, "design_ref": ref},
                "level_note": note + "; " + TRUST,
                "technique": tech,
            })
        else:
            na.append({"property_id": pid, "reason": NOT_YET.get(
                pid, "monitor for this property is not built yet in this commit (planned, see DESIGN.md section 3); "
                     "not claimed until its check runs silently on the unchanged tree")})
    manifest = {
        "version": 1,
        "setup_cmd": "./setup.sh",
        "hooks": {
            "guard": "RENORMALIZER_VERIF",
            "enable": "checks export RENORMALIZER_VERIF=1 and import /repo's working tree directly (pure Python, no "
                      "build); all instrumentation is applied from the harness by rebinding attributes after import",
            "baseline_off_cmd": BASELINE_OFF,
            "source_commits": [],
            "add_only": True,
        },
        "engines": [{
            "name": "rv",
            "path": "rv/",
            "serves_properties": sorted(CHECKS),
            "kind_free_text": "runtime monitoring harness: generated hostile workloads driving the real code in worker "
                              "subprocesses; reference-model oracles (independent dense algebra), invariant monitors at "
                              "quiescent points, icontract contracts on kernels, fault injection for crash points; "
                              "three-valued verdicts; evidence aggregated from per-case events",
        }],
        "checks": checks,
        "not_applicable": na,
        "notes": "Exit codes: 0 held (KNOWN-FINDING lines possible), 1 VIOLATION, 2 INCONCLUSIVE (a deciding monitor "
                 "was not reached / worker died). Known findings: known_findings.json (committed, never written at run "
                 "time). VERIF_SEED selects the workload; REPO_ROOT (default /repo) selects the tree under test.",
    }
    with open(os.path.join(ROOT, "MANIFEST.json"), "w") as f:
        json.dump(manifest, f, indent=1)
        f.write("\n")
    print("checks:", [c["property_id"] for c in checks], "not_applicable:", len(na))


if __name__ == "__main__":
    main()
