#!/usr/bin/env python3
"""Reach map: which functions of the files a property is anchored in does the workload of its check execute?

    python3 tools/reach.py [--tier quick] [--only C03,C07] [--out reach]

Runs `./check <ID> <tier>` with the opt-in line recorder of rv/env.py (VERIF_REACH_DIR; the evidence of these runs goes to
evidence/<ID>.json.reach and is thrown away), then lists per property the functions and methods of its anchor files of which
no line was executed.  A monitor says nothing about code its workload never drives: this is the list of that code."""
import argparse
import ast
import json
import re
import os
import shutil
import subprocess
import sys
import tempfile

ROOT = os.path.dirname(os.path.dirname(os.path.abspath(__file__)))
REPO = os.environ.get("REPO_ROOT", "/repo")


def functions(path):
    src = open(path).read()
    tree = ast.parse(src)
    out = []

    def walk(node, prefix):
        for ch in ast.iter_child_nodes(node):
            if isinstance(ch, (ast.FunctionDef, ast.AsyncFunctionDef)):
                body = [n.lineno for b in ch.body for n in ast.walk(b) if hasattr(n, "lineno")]
                # skip the docstring line(s)
                first = ch.body[0]
                if isinstance(first, ast.Expr) and isinstance(getattr(first, "value", None), ast.Constant) and isinstance(first.value.value, str):
                    doc = set(range(first.lineno, first.end_lineno + 1))
                    body = [l for l in body if l not in doc]
                out.append((prefix + ch.name, ch.lineno, ch.end_lineno, sorted(set(body))))
                walk(ch, prefix + ch.name + ".")
            elif isinstance(ch, ast.ClassDef):
                walk(ch, prefix + ch.name + ".")
    walk(tree, "")
    return out


def main():
    ap = argparse.ArgumentParser()
    ap.add_argument("--tier", default="quick")
    ap.add_argument("--only", default="")
    ap.add_argument("--out", default=os.path.join(ROOT, "reach"))
    a = ap.parse_args()
    sys.path.insert(0, os.path.join(ROOT, ".deps"))
    import coverage
    props = [json.loads(l) for l in open(os.path.join(ROOT, "properties.jsonl"))]
    only = set(x for x in a.only.split(",") if x)
    os.makedirs(a.out, exist_ok=True)
    summary = {}
    for p in props:
        pid = p["id"]
        if only and pid not in only:
            continue
        d = tempfile.mkdtemp(prefix="reach_" + pid + "_", dir="/var/tmp")
        env = dict(os.environ, VERIF_REACH_DIR=d, VERIF_EVIDENCE_SUFFIX=".reach")
        r = subprocess.run([os.path.join(ROOT, "check"), pid, a.tier], env=env, capture_output=True, text=True)
        cov = coverage.Coverage(data_file=os.path.join(d, "cov"), config_file=False)
        cov.combine([d], keep=False)
        cov.save()
        data = cov.get_data()
        keep_dir = os.path.join("/var/tmp", "reach_union")
        os.makedirs(keep_dir, exist_ok=True)
        shutil.copy(os.path.join(d, "cov"), os.path.join(keep_dir, "cov." + pid))
        rows = []
        nf = nr = 0
        files = list(p["anchors"]["files"])
        for mech in p["anchors"].get("mechanism", []):
            for part in mech.get("where", "").split(";"):
                if ":" in part and part.strip().split(":", 1)[0].strip() not in files:
                    files.append(part.strip().split(":", 1)[0].strip())
        for rel in files:
            path = os.path.join(REPO, rel)
            if not os.path.exists(path):
                continue
            lines = set(data.lines(path) or [])
            for name, lo, hi, body in functions(path):
                if not body:
                    continue
                hit = [l for l in body if l in lines]
                nf += 1
                if hit:
                    nr += 1
                rows.append({"file": rel, "function": name, "line": lo, "body_lines": len(body), "executed_lines": len(hit)})
        # the functions the property names as its mechanism ("where" fields)
        named = []
        for mech in p["anchors"].get("mechanism", []):
            for part in mech.get("where", "").split(";"):
                if ":" not in part:
                    continue
                rel, names = part.strip().split(":", 1)
                for nm in names.split(","):
                    m = re.match(r"\s*([A-Za-z_][A-Za-z0-9_.]*)", nm)
                    if not m:
                        continue
                    leaf = m.group(1).split(".")[-1]
                    cands = [r_ for r_ in rows if r_["file"] == rel.strip() and (r_["function"].split(".")[-1] == leaf or leaf in r_["function"].split(".")[:-1])]
                    named.append({"mechanism": mech["name"][:60], "file": rel.strip(), "name": m.group(1),
                                  "found": bool(cands), "reached": any(c["executed_lines"] for c in cands),
                                  "executed_fraction": (max(c["executed_lines"] / c["body_lines"] for c in cands) if cands else None)})
        # every library function the workload entered (for the union over all checks)
        entered = []
        for dirpath, _dn, fns in os.walk(os.path.join(REPO, "renormalizer")):
            if "tests" in dirpath.split(os.sep):
                continue
            for fn_ in fns:
                if not fn_.endswith(".py"):
                    continue
                path = os.path.join(dirpath, fn_)
                lines = set(data.lines(path) or [])
                if not lines:
                    continue
                for name, lo, hi, body in functions(path):
                    if body and any(l in lines for l in body):
                        entered.append(os.path.relpath(path, REPO) + ":" + name)
        shutil.rmtree(d, ignore_errors=True)
        ev = os.path.join(ROOT, "evidence", pid + ".json.reach")
        if os.path.exists(ev):
            os.remove(ev)
        json.dump({"property": pid, "tier": a.tier, "check_exit": r.returncode, "named_mechanism_functions": named, "functions": rows, "entered_anywhere_in_the_library": sorted(entered)}, open(os.path.join(a.out, pid + ".json"), "w"), indent=1)
        summary[pid] = (nf, nr, r.returncode)
        print(pid, "exit", r.returncode, "functions", nf, "reached", nr, "| named", len(named), "not reached:", [n["name"] for n in named if not n["reached"]], flush=True)
    write_md(a.out)
    write_lines(a.out)
    return 0


def write_lines(out):
    """Line-level union over all checks: `coverage report -m` for the anchor files -> reach/LINES.txt."""
    import coverage
    keep_dir = os.path.join("/var/tmp", "reach_union")
    if not os.path.isdir(keep_dir):
        return
    for f in os.listdir(keep_dir):
        if f == "cov":
            os.remove(os.path.join(keep_dir, f))
    cov = coverage.Coverage(data_file=os.path.join(keep_dir, "cov"), config_file=False)
    cov.combine([keep_dir], keep=True)
    cov.save()
    anchor_files = sorted({os.path.join(REPO, f) for l in open(os.path.join(ROOT, "properties.jsonl")) for f in json.loads(l)["anchors"]["files"]})
    with open(os.path.join(out, "LINES.txt"), "w") as fh:
        fh.write("Union over the quick tier of all twenty checks: lines of the anchor files that no check executed\n\n")
        cov.report(morfs=[f for f in anchor_files if os.path.exists(f)], show_missing=True, file=fh, ignore_errors=True)


def write_md(out):
    lines = ["# Reach map of the check workloads (generated by tools/reach.py; quick tier unless stated)", "",
             "Per property: the functions its `anchors.mechanism[*].where` names, with the fraction of their statements' lines the",
             "workload of the check executed, and the other functions of the anchor files that were never entered.  A monitor decides",
             "nothing about code its workload does not drive; this file is that list.", ""]
    for fn in sorted(os.listdir(out)):
        if not fn.endswith(".json"):
            continue
        d = json.load(open(os.path.join(out, fn)))
        rows = d["functions"]
        lines.append(f"## {d['property']}  (tier {d['tier']}, check exit {d['check_exit']})")
        lines.append("")
        lines.append("| named in the property | file | entered | lines executed |")
        lines.append("|---|---|---|---|")
        for n in d["named_mechanism_functions"]:
            frac = "-" if n["executed_fraction"] is None else f"{100 * n['executed_fraction']:.0f}%"
            ent = "yes" if n["reached"] else ("no" if n["found"] else "not a function (attribute / prefix)")
            lines.append(f"| `{n['name']}` | {n['file']} | {ent} | {frac} |")
        never = [r for r in rows if not r["executed_lines"]]
        lines.append("")
        lines.append(f"Functions of the anchor files entered: {len(rows) - len(never)} of {len(rows)}.  Never entered: " +
                     ", ".join(f"`{os.path.basename(r['file'])}:{r['function']}`" for r in never))
        lines.append("")
    union = set()
    for fn in sorted(os.listdir(out)):
        if fn.endswith(".json"):
            union.update(json.load(open(os.path.join(out, fn))).get("entered_anywhere_in_the_library", []))
    anchor_files = sorted({f for l in open(os.path.join(ROOT, "properties.jsonl")) for f in json.loads(l)["anchors"]["files"]})
    lines.append("## Functions of the anchor files that NO check enters")
    lines.append("")
    for rel in anchor_files:
        path = os.path.join(REPO, rel)
        if not os.path.exists(path):
            continue
        miss = [name for name, lo, hi, body in functions(path) if body and (rel + ":" + name) not in union]
        allf = [name for name, lo, hi, body in functions(path) if body]
        lines.append(f"- `{rel}` ({len(allf) - len(miss)} of {len(allf)} entered): " + (", ".join(f"`{m}`" for m in miss) if miss else "all entered"))
    lines.append("")
    open(os.path.join(out, "REACH.md"), "w").write("\n".join(lines))


if __name__ == "__main__":
    sys.exit(main())
