#!/usr/bin/env python3
"""Confirm a seeded breaking change and run the checks against it.

usage: tools/seeded.py <seed-id> [--checks C03,C06] [--tier quick]

Steps, all in a scratch git worktree of /repo under /tmp (removed afterwards; /repo itself is never modified, so that
background runs that read /repo are not disturbed - the checks are pointed at the worktree with REPO_ROOT):
 1. demo on the unchanged tree must exit 0;
 2. apply seeded/<id>/patch.diff; demo must exit non-zero;
 3. run the requested checks (default: the property the change targets) with REPO_ROOT=<worktree>; exit 1 = caught.
The outcome is written into seeded/<id>/meta.json under "verified" and "caught_by".
"""
import json
import os
import subprocess
import sys
import time

ROOT = os.path.dirname(os.path.dirname(os.path.abspath(__file__)))


def sh(cmd, **kw):
    return subprocess.run(cmd, capture_output=True, text=True, **kw)


def main():
    sid = sys.argv[1]
    sdir = os.path.join(ROOT, "seeded", sid)
    meta = json.load(open(os.path.join(sdir, "meta.json")))
    checks = [meta["property"]]
    tier = "quick"
    if "--checks" in sys.argv:
        checks = sys.argv[sys.argv.index("--checks") + 1].split(",")
    if "--tier" in sys.argv:
        tier = sys.argv[sys.argv.index("--tier") + 1]
    wt = f"/tmp/seedchk_{sid}_{os.getpid()}"
    r = sh(["git", "-C", "/repo", "worktree", "add", "-q", "--detach", wt, "HEAD"])
    if r.returncode:
        print(r.stderr)
        return 2
    envd = dict(os.environ, PYTHONPATH=f"{wt}:{ROOT}/rv/shims", RENO_LOG_LEVEL="50", OMP_NUM_THREADS="1")
    try:
        demo = os.path.join(sdir, "demo.py")
        base = sh(["/venv/bin/python", demo], cwd=wt, env=envd, timeout=1800)
        ap = sh(["git", "-C", wt, "apply", os.path.join(sdir, "patch.diff")])
        if ap.returncode:
            print("patch does not apply:", ap.stderr)
            return 2
        changed = sh(["/venv/bin/python", demo], cwd=wt, env=envd, timeout=1800)
        verified = {"demo_exit_unchanged": base.returncode, "demo_exit_changed": changed.returncode,
                    "ok": base.returncode == 0 and changed.returncode != 0,
                    "repo_commit": sh(["git", "-C", "/repo", "rev-parse", "--short", "HEAD"]).stdout.strip(),
                    "demo_output_changed": changed.stdout[-400:]}
        print("verified:", verified["ok"], "unchanged exit", base.returncode, "changed exit", changed.returncode)
        caught = meta.get("caught_by", {})
        for c in checks:
            t0 = time.time()
            p = sh(["./check", c, tier], cwd=ROOT, env=dict(os.environ, REPO_ROOT=wt, VERIF_EVIDENCE_SUFFIX=".seed"), timeout=7200)
            sigs = sorted({ln.split("signature=")[1].split(" cases=")[0] for ln in p.stdout.splitlines()
                           if ln.startswith("VIOLATION") and "signature=" in ln})
            caught[f"{c}:{tier}"] = {"exit": p.returncode, "caught": p.returncode == 1, "signatures": sigs[:6],
                                     "wall_s": round(time.time() - t0, 1)}
            print(c, tier, "exit", p.returncode, sigs[:3])
        meta["verified"] = verified
        meta["caught_by"] = caught
        json.dump(meta, open(os.path.join(sdir, "meta.json"), "w"), indent=1)
    finally:
        sh(["git", "-C", "/repo", "worktree", "remove", "--force", wt])
    return 0


if __name__ == "__main__":
    sys.exit(main())
