#!/usr/bin/env python3
"""Regenerate the mutant table in DESIGN.md (between the MUTANT-TABLE markers) from mutants/results.jsonl (last run per
mutant and property)."""
import json
import os

ROOT = os.path.dirname(os.path.dirname(os.path.abspath(__file__)))
import importlib.util
_spec = importlib.util.spec_from_file_location("mutants", os.path.join(ROOT, "tools", "mutants.py"))
_mod = importlib.util.module_from_spec(_spec)
_spec.loader.exec_module(_mod)
TARGETS = {m[0]: set(m[1]) for m in _mod.M}
last = {}
for ln in open(os.path.join(ROOT, "mutants", "results.jsonl")):
    r = json.loads(ln)
    if r["property"] in TARGETS.get(r["mutant"], ()):
        last[(r["mutant"], r["property"])] = r
rows = []
by_mut = {}
for (m, p), r in last.items():
    by_mut.setdefault(m, []).append(r)
ncaught = 0
for m in sorted(by_mut):
    rs = sorted(by_mut[m], key=lambda r: r["property"])
    caught = [f"{r['property']} ({(r['signatures'] or ['?'])[0].split('|', 1)[-1][:70].replace('|', ' / ')})" for r in rs if r["caught"]]
    silent = [r["property"] for r in rs if not r["caught"]]
    ncaught += bool(caught)
    rows.append(f"| `{m}` | `{rs[0]['file']}` | {'; '.join(caught) or '**none**'} | {', '.join(silent) or '-'} |")
table = "\n".join([f"{ncaught} of {len(by_mut)} mutants are caught by at least one of the checks they were aimed at.", "",
                   "| mutant | file | caught by (first signature) | aimed at but silent |", "|---|---|---|---|"] + rows)
p = os.path.join(ROOT, "DESIGN.md")
s = open(p).read()
a, b = "<!-- MUTANT-TABLE-BEGIN -->", "<!-- MUTANT-TABLE-END -->"
if a in s:
    s = s[:s.index(a) + len(a)] + "\n" + table + "\n" + s[s.index(b):]
    open(p, "w").write(s)
print(table)
