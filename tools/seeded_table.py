#!/usr/bin/env python3
"""Regenerate the table of seeded breaking changes in DESIGN.md (between the SEEDED-TABLE markers) from seeded/*/meta.json."""
import glob
import json
import os

ROOT = os.path.dirname(os.path.dirname(os.path.abspath(__file__)))
rows = []
for d in sorted(glob.glob(os.path.join(ROOT, "seeded", "*"))):
    mp = os.path.join(d, "meta.json")
    if not os.path.exists(mp):
        continue
    m = json.load(open(mp))
    caught = [k for k, v in m.get("caught_by", {}).items() if v.get("caught")]
    missed = [k for k, v in m.get("caught_by", {}).items() if not v.get("caught")]
    ver = m.get("verified", {})
    note = m.get("strengthened", "")
    rows.append("| `%s` | %s | %s | %s | %s | %s |" % (
        os.path.basename(d), m.get("property"), (m.get("summary") or "").replace("|", "\\|")[:260],
        "yes" if ver.get("ok") else "NO", ", ".join(caught) or "-", (", ".join(missed) + (" — " + note if note else "")) or "-"))
table = "\n".join(["| seed | property | change | demo confirmed | caught by (exit 1) | run but silent / what was strengthened |",
                   "|------|----------|--------|----------------|--------------------|------------------------------------------|"] + rows)
p = os.path.join(ROOT, "DESIGN.md")
s = open(p).read()
a, b = "<!-- SEEDED-TABLE-BEGIN -->", "<!-- SEEDED-TABLE-END -->"
if a in s:
    s = s[:s.index(a) + len(a)] + "\n" + table + "\n" + s[s.index(b):]
    open(p, "w").write(s)
print(table)
