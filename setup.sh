#!/bin/bash
# Offline setup: put icontract beside the repository's interpreter (into /verif/.deps, git-ignored).
set -e
cd "$(dirname "$0")"
PY="${VERIF_PYTHON:-/venv/bin/python}"
if [ ! -d .deps/icontract ]; then
  mkdir -p .deps
  PIP_NO_INDEX=1 "$PY" -m pip install --quiet --no-index --find-links /opt/veriftools/wheels --target .deps icontract \
    || { echo "icontract install failed" >&2; exit 1; }
fi
mkdir -p evidence replays
echo "setup ok"
